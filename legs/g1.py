"""Bounded contract legs over program family G1 (see g1gen.py).  usage: g1.py <mode> [maxdepth]
 modes: suspended (C01) | meta (C08) | running (C02) | referents (C20) | twin (C06)
Each generated program is compiled and run for every branch-outcome vector; the generated managers keep a shadow log of
`__enter__/__aenter__ returned` / `__exit__/__aexit__ returned`, which is the ground truth the contract of
contexts_active_in_frame / Frame.contexts is evaluated against at EVERY suspension point (suspended modes) or from inside
every __enter__/__exit__/__aenter__/__aexit__ and body call (running mode)."""
import sys, os, types, itertools, warnings, collections, linecache, re, gc, weakref, json, multiprocessing as mp
sys.path.insert(0, os.path.dirname(__file__))
from _leg import Leg, THOROUGH, SEED
import g1gen

MODE = sys.argv[1]
MAXD = int(sys.argv[2]) if len(sys.argv) > 2 else 2
NPROC = int(os.environ.get("G1_PROCS", "14"))
STRIDE = int(os.environ.get("G1_STRIDE", "1"))

import stackscope
from stackscope import lowlevel


@types.coroutine
def ay(v):
    if MODE == "running":
        probe("body")
    return (yield v)


def ident(x):
    return x


TRUTH = []          # entered-but-not-exited managers, in order (shadow log)
EXITING = [None]
ENTERING = [None]
CUR = [None]
FAILS = collections.OrderedDict()
STATS = collections.Counter()


def fail(key, desc):
    STATS["bad"] += 1
    FAILS.setdefault(key, desc)


def expected(lines_of):
    return [(m, isinstance(m, M), m is EXITING[0]) for m in TRUTH]


def check_contexts(ctxs, w, err, where, lines_of):
    got = [(c.obj, c.is_async, c.is_exiting) for c in ctxs]
    exp = expected(lines_of)
    STATS["points"] += 1
    if MODE in ("suspended", "running"):
        if got != exp or w or err is not None:
            fail(CUR[0], f"at {where}: contexts {got} != truth {exp}; warnings={[str(x.message)[:90] for x in w]} error={err!r}")
    elif MODE == "meta":
        if got != exp:
            return      # exactness is C01's business; metadata is judged only where the contexts are right
        for c in ctxs:
            n = c.obj.n
            line, target = lines_of[n]
            if c.start_line != line:
                fail(CUR[0], f"at {where}: start_line {c.start_line} of {c.obj!r}, the with keyword is on line {line}")
            if target is None:
                if c.varname is not None:
                    fail(CUR[0], f"at {where}: varname {c.varname!r} for a manager with no `as` target and no local bound to it")
            elif c.varname != target:
                fail(CUR[0], f"at {where}: varname {c.varname!r}, the `as` target is {target!r}")
    elif MODE == "referents":
        # sound ordered over-approximation: every truly active manager, in order, right obj/is_async; is_exiting entry iff an
        # exit call is in progress; extras only the manager being entered or exited
        allowed_extra = {id(EXITING[0]), id(ENTERING[0])} - {id(None)}
        active = [m for m in TRUTH if m is not EXITING[0]]
        it = iter([(c.obj, c.is_async) for c in ctxs if not c.is_exiting])
        ok = all(any(o is m and a == isinstance(m, M) for o, a in it) for m in active)
        extras = [c.obj for c in ctxs if not c.is_exiting and not any(c.obj is m for m in active)]
        exiting_entries = [c for c in ctxs if c.is_exiting]
        if not ok:
            fail(CUR[0], f"at {where}: fallback misses an active manager or breaks order: {got} vs truth {exp}")
        elif any(id(x) not in allowed_extra for x in extras):
            fail(CUR[0], f"at {where}: fallback lists an extra manager that is neither being entered nor exited: {extras}")
        elif (len(exiting_entries) == 1) != (EXITING[0] is not None) or len(exiting_entries) > 1:
            fail(CUR[0], f"at {where}: is_exiting entries {len(exiting_entries)} but exit in progress = {EXITING[0] is not None}")
        elif err is not None:
            fail(CUR[0], f"at {where}: error {err!r}")


LINES = [None]


def probe(where):
    f = sys._getframe(1)
    while f is not None and f.f_code.co_name != "prog":
        f = f.f_back
    if f is None:
        return
    with warnings.catch_warnings(record=True) as w:
        warnings.simplefilter("always")
        st = stackscope.extract_since(f)
    check_contexts(st.frames[0].contexts, w, st.error, where, LINES[0])


class S:
    swallow = False
    def __init__(s, n): s.n = n
    def __repr__(s): return f"S{s.n}"
    def __enter__(s):
        if MODE == "running": probe("senter")
        TRUTH.append(s); return s
    def __exit__(s, *e):
        EXITING[0] = s
        if MODE == "running": probe("sexit")
        EXITING[0] = None; TRUTH.remove(s)
        return s.swallow


class SS(S):
    swallow = True


class M:
    swallow = False
    def __init__(s, n): s.n = n
    def __repr__(s): return f"M{s.n}"
    async def __aenter__(s):
        ENTERING[0] = s
        if MODE == "running": probe("aenter")
        else: await ay(("entering", s.n))
        ENTERING[0] = None
        TRUTH.append(s); return s
    async def __aexit__(s, *e):
        EXITING[0] = s
        if MODE == "running": probe("aexit")
        else: await ay(("exiting", s.n))
        EXITING[0] = None
        TRUTH.remove(s)
        return s.swallow


class MS(M):
    swallow = True


TICK = [0]


def tick():
    TICK[0] += 1; return TICK[0] <= 2


C = []


def with_lines(src):
    """manager number -> (line of the with keyword, `as` target or None)"""
    out = {}
    for ln, line in enumerate(src.splitlines(), 1):
        for m in re.finditer(r"(?:MS|M|SS|S)\((\d+)\)( as (v\d+))?", line):
            out[int(m.group(1))] = (ln, m.group(3))
    return out


def drive(kind, obj, observe):
    """run to completion, calling observe(obj) at every suspension point; returns the trace of values"""
    trace = []
    try:
        if kind in ("coro", "gen"):
            step = (lambda: obj.send(None))
            for _ in range(80):
                v = step(); trace.append(v); observe(obj)
        else:
            for _ in range(40):
                aw = obj.asend(None)
                try:
                    for _ in range(40):
                        v = aw.send(None); trace.append(("await", v)); observe(obj)
                except StopIteration as e:
                    trace.append(("yield", e.value)); observe(obj)
    except (StopIteration, StopAsyncIteration):
        trace.append("done")
    except KeyError:
        trace.append("KeyError")
    finally:
        try:
            if kind == "agen":
                try: obj.aclose().send(None)
                except (StopIteration, StopAsyncIteration, RuntimeError, KeyError): pass
            else:
                obj.close()
        except (RuntimeError, KeyError):
            pass
    return trace


def run(kind, src, nm, nc, idx):
    CUR[0] = src
    fname = f"<g1-{kind}-{idx}>"
    linecache.cache[fname] = (len(src), None, src.splitlines(True), fname)
    ns = dict(ay=ay, ident=ident, S=S, SS=SS, M=M, MS=MS, C=C, tick=tick)
    exec(compile(src, fname, "exec"), ns)
    if kind == "agen":
        exec("async def _via():\n    async for _v in prog():\n        pass\n", ns)
    LINES[0] = with_lines(src)
    for bits in itertools.product([False, True], repeat=nc):
        def reset():
            C[:] = bits; TRUTH.clear(); EXITING[0] = None; ENTERING[0] = None; TICK[0] = 0
        reset()
        STATS["runs"] += 1
        if MODE == "twin":
            base = drive(kind, ns["prog"](), lambda o: None)
            reset()
            extractions = []
            def obs(o):
                # every 5th program runs with the cyclic collector switched OFF by the application: the observation must leave it off
                if idx % 5 == 0: gc.disable()
                st0 = (gc.isenabled(), sys.gettrace(), sys.getprofile(), sys.getswitchinterval(), sys.getrecursionlimit(), gc.get_threshold())
                with warnings.catch_warnings(record=True):
                    warnings.simplefilter("always")
                    a = stackscope.extract(o); b = stackscope.extract(o)
                st1 = (gc.isenabled(), sys.gettrace(), sys.getprofile(), sys.getswitchinterval(), sys.getrecursionlimit(), gc.get_threshold())
                gc.enable()
                STATS["points"] += 1
                if st0 != st1:
                    fail(src, f"extraction changed process-wide interpreter state (gc enabled, trace, profile, switch interval, recursion limit, gc thresholds): {st0} -> {st1}")
                if a != b:
                    fail(src, "two extractions of an unchanged target differ")
                extractions.append(a)
            obj = ns["prog"]()
            tr = drive(kind, obj, obs)
            if tr != base:
                fail(src, f"observed run diverges from the un-observed twin: {tr} vs {base}")
            refs = [weakref.ref(c.obj) for st in extractions for f in st.frames for c in f.contexts if c.obj is not None]
            del extractions, obj
            gc.collect()
            if any(r() is not None for r in refs) and not TRUTH:
                alive = [r() for r in refs if r() is not None]
                fail(src, f"managers kept alive after the results were dropped: {alive[:3]}")
            continue
        if MODE == "running":
            drive(kind, ns["prog"](), lambda o: None)
            continue
        def obs(o):
            with warnings.catch_warnings(record=True) as w:
                warnings.simplefilter("always")
                st = stackscope.extract(o)
            if not st.frames:
                return
            check_contexts(st.frames[0].contexts, w, st.error, "suspension", LINES[0])
        drive(kind, ns["prog"](), obs)
        if kind == "agen" and idx % 8 == 0:
            # the same async generator REACHED THROUGH a coroutine that iterates it (async for): its frame is then found by
            # walking the coroutine's await chain, and must carry the same contexts (every 8th program: the pass is a repeat)
            reset()
            def obs_via(o):
                with warnings.catch_warnings(record=True) as w:
                    warnings.simplefilter("always")
                    st = stackscope.extract(o)
                fr = [f for f in st.frames if f.funcname == "prog"]
                if not fr:
                    return
                check_contexts(fr[0].contexts, w, st.error, "suspension, async generator reached through a coroutine", LINES[0])
            drive("coro", ns["_via"](), obs_via)


def shard(k):
    sys.stderr = open(os.devnull, "w")      # a failing analysis prints a traceback per observation: keep the leg's output small
    if MODE == "referents":
        lowlevel.set_trickery_enabled(False)
    n = 0
    for idx, (kind, src, nm, nc) in enumerate(g1gen.programs(MAXD)):
        if idx % STRIDE != (SEED % STRIDE):
            continue
        if (idx // STRIDE) % NPROC != k:
            continue
        n += 1
        try:
            run(kind, src, nm, nc, idx)
        except BaseException as e:  # noqa
            fail(src, f"harness/interpreter error {type(e).__name__}: {e}")
    return n, dict(STATS), list(FAILS.items())[:40]


if __name__ == "__main__":
    leg = Leg("g1_" + MODE, f"all G1 programs of nesting depth <= {MAXD} (stride {STRIDE}), 3 function kinds (coroutine, generator, async "
                             "generator), every branch-outcome vector, every suspension point / probe position; non-trivial = every program "
                             "(each has >= 1 manager); distinct by source text")
    with mp.get_context("fork").Pool(NPROC) as pool:
        parts = pool.map(shard, range(NPROC))
    progs = sum(p[0] for p in parts)
    st = collections.Counter()
    for p in parts:
        st.update(p[1])
    leg.evals = st["points"]
    for i in range(progs):
        leg.distinct.add(i)
    leg.extra.update(programs=progs, runs=st["runs"], points=st["points"], failing_programs=sum(len(p[2]) for p in parts), interpreter=sys.version.split()[0])
    for p in parts:
        for src, desc in p[2]:
            leg.violation(re.sub(r"\s+", " ", src)[:150], desc + "\nPROGRAM:\n" + src)
    leg.samples = [dict(program=src) for _, src, _, _ in itertools.islice(g1gen.programs(MAXD), 2000, 2003)]
    leg.finish(exhaustive=(STRIDE == 1))
