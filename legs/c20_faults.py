"""C20 bounded native leg: faults INSIDE the trickery analysis.  For every program of a small family (1..3 nested / sequential
with blocks, sync generator and coroutine, a target-less item, an `as` tuple), at every suspension point, an exception is
injected at the k-th call (k = 1..3) of every helper the trickery path calls by name (inspect_frame,
currently_exiting_context, analyze_with_blocks, describe_assignment_target, _parse_exception_table, dataclasses.replace,
dis.Bytecode).  Contract per injected run: contexts_active_in_frame returns (never raises); if the fault fired there is an
InspectionWarning and the result contains every truly active manager, in order, with the right obj and is_async, and at most the
manager being entered / exited besides.  Contract for the NEXT, fault-free inspection of the same frame and of a fresh frame of
the same function: exactly the active managers, no warning - a failed analysis leaves nothing behind."""
import sys, os, io, gc, warnings, contextlib, itertools, dis
sys.path.insert(0, os.path.dirname(__file__))
from _leg import Leg, THOROUGH
import stackscope
from stackscope import _lowlevel as ll

leg = Leg("c20_faults", "6 programs x every suspension point x 7 helpers x k-th call (k<=3): faulted inspection, then a fault-free one of the same "
                        "frame and of a fresh frame of the same function; non-trivial = the fault fired")


class M:
    def __init__(s, tag): s.tag = tag
    def __enter__(s): return (s, s)
    def __exit__(s, *a): return False
    async def __aenter__(s): return s
    async def __aexit__(s, *a): return False
    def __repr__(s): return f"M({s.tag})"


class Trap:
    def __await__(s):
        yield s


SRC = {
    "nested2": ("gen", "def fn(M, T, A):\n    a = M('a'); b = M('b')\n    with a as x:\n        A[:] = [a]; yield\n        with b:\n            A[:] = [a, b]; yield\n        A[:] = [a]; yield\n"),
    "sequential": ("gen", "def fn(M, T, A):\n    a = M('a'); b = M('b')\n    with a:\n        A[:] = [a]; yield\n    A[:] = []; yield\n    with b as (p, q):\n        A[:] = [b]; yield\n"),
    "triple": ("gen", "def fn(M, T, A):\n    a = M('a'); b = M('b'); c = M('c')\n    with a, b as y:\n        with c as z.k if False else c:\n            pass\n        A[:] = [a, b]; yield\n"),
    "loop": ("gen", "def fn(M, T, A):\n    for i in range(2):\n        m = M(i)\n        with m as cur:\n            A[:] = [m]; yield\n"),
    "async2": ("coro", "async def fn(M, T, A):\n    a = M('a'); b = M('b')\n    async with a as x:\n        A[:] = [a]; await T()\n        with b:\n            A[:] = [a, b]; await T()\n"),
    "async-seq": ("coro", "async def fn(M, T, A):\n    a = M('a'); b = M('b')\n    async with a:\n        A[:] = [a]; await T()\n    async with b as y:\n        A[:] = [b]; await T()\n"),
}
SRC["triple"] = ("gen", "def fn(M, T, A):\n    a = M('a'); b = M('b'); c = M('c')\n    with a, b as y:\n        with c as (u, v):\n            A[:] = [a, b, c]; yield\n        A[:] = [a, b]; yield\n")

HELPERS = ["inspect_frame", "currently_exiting_context", "analyze_with_blocks", "describe_assignment_target", "_parse_exception_table", "replace",
           "dis.Bytecode"]


class Fault(Exception):
    pass


class AssertFault(AssertionError):
    """what the analysis' own sanity checks raise (a cleared frame, an unexpected layout): the kind of failure met in practice"""


@contextlib.contextmanager
def inject(helper, k):
    """the k-th call of the helper raises; reports whether it fired"""
    state = dict(n=0, fired=False)
    holder, name = (dis, "Bytecode") if helper == "dis.Bytecode" else (ll, helper)
    if not hasattr(holder, name):
        yield None
        return
    orig = getattr(holder, name)
    def wrapper(*a, **kw):
        state["n"] += 1
        if state["n"] == k:
            state["fired"] = True
            raise (AssertFault if k == 2 else Fault)(f"injected in {helper} call {k}")
        return orig(*a, **kw)
    setattr(holder, name, wrapper)
    try:
        yield state
    finally:
        setattr(holder, name, orig)


def inspect(frame, origin):
    with warnings.catch_warnings(record=True) as w:
        warnings.simplefilter("always")
        err = io.StringIO()
        with contextlib.redirect_stderr(err):
            try:
                ctxs = ll.contexts_active_in_frame(frame, origin)
            except BaseException as e:
                return None, e, w
    return ctxs, None, [x for x in w if issubclass(x.category, ll.InspectionWarning)]


def advance(kind, obj):
    try:
        if kind == "gen":
            next(obj)
        else:
            obj.send(None)
        return True
    except StopIteration:
        return False


def frame_of(kind, obj):
    return obj.gi_frame if kind == "gen" else obj.cr_frame


def exact(ctxs, active):
    return [c.obj for c in ctxs] == active and not any(c.is_exiting for c in ctxs)


def superset_in_order(ctxs, active):
    """every active manager, in order; besides them at most ONE extra entry (a manager being entered / exited)"""
    objs = [c.obj for c in ctxs]
    it = iter(objs)
    if not all(any(o is a for o in it) for a in active):
        return False
    return len(objs) <= len(active) + 1


CASE = [0]
ll.set_trickery_enabled(True)
for pname, (kind, src) in SRC.items():
    ns = {}
    exec(compile(src, f"<c20f:{pname}>", "exec"), ns)
    fn = ns["fn"]
    # number of suspension points
    A = []
    probe = fn(M, Trap, A); npoints = 0
    BASE = []          # per suspension point: the `as` names the default analysis reports (fault-free, before any injection)
    while advance(kind, probe):
        npoints += 1
        BASE.append([c.varname for c in inspect(frame_of(kind, probe), probe)[0]])
    for point in range(npoints):
        for helper in HELPERS:
            for k in (1, 2, 3):
                # a FRESH code object for every case: the faulted inspection is the first one this code ever gets
                # (code objects compare by VALUE: the line offset makes this one unequal to every earlier one)
                CASE[0] += 1
                ns = {}
                exec(compile("\n" * CASE[0] + src, f"<c20f:{pname}>", "exec"), ns)
                fn = ns["fn"]
                A = []
                obj = fn(M, Trap, A)
                for _ in range(point + 1): advance(kind, obj)
                active = list(A)
                fr = frame_of(kind, obj)
                key = (pname, point, helper, k)
                with inject(helper, k) as st:
                    if st is None:
                        break
                    ctxs, exc, w = inspect(fr, obj)
                fired = st["fired"]
                leg.case(key, fired, sample=dict(program=pname, point=point, helper=helper, call=k) if fired and len(leg.samples) < 4 else None)
                if exc is not None:
                    leg.violation(key, f"contexts_active_in_frame raised {exc!r} (a failing analysis may only warn)")
                elif fired and not w:
                    leg.violation(key, "the injected fault fired but no InspectionWarning was issued")
                elif fired and not superset_in_order(ctxs, active) or (kind, any(c.is_async for c in ctxs)) == ("gen", True):
                    leg.violation(key, f"fallback result {[(c.obj, c.is_async, c.is_exiting) for c in ctxs]} does not contain the active managers {active} in order")
                elif not fired and not exact(ctxs, active):
                    leg.violation(key, f"fault not reached, yet the result {[c.obj for c in ctxs]} is not the active managers {active}")
                # afterwards, without any fault: the same frame, and a fresh frame of the same function at the same point
                c2, e2, w2 = inspect(fr, obj)
                A2 = []
                obj2 = fn(M, Trap, A2)
                for _ in range(point + 1): advance(kind, obj2)
                c3, e3, w3 = inspect(frame_of(kind, obj2), obj2)
                for tag, cc, ee, ww, act in (("same frame", c2, e2, w2, active), ("fresh frame of the same function", c3, e3, w3, list(A2))):
                    # ... and it is the SAME analysis as before the fault (C06: a failed inspection changes nothing for later ones; a process-
                    # wide switch to the fallback would lose the `as` names and lines)
                    if ee is not None or ww or not exact(cc, act) or [c.varname for c in cc] != BASE[point] or any(c.start_line is None for c in cc):
                        leg.violation(key + (tag,), f"fault-free inspection AFTER a failed one ({tag}): raised={ee!r} warnings={len(ww or [])} "
                                                    f"result={[(c.obj, c.varname, c.start_line) for c in cc] if cc is not None else None} active={act} names expected={BASE[point]}")
                        break
                for o in (obj, obj2):
                    o.close()
                if fired and exc is None:
                    # reference counts (C06): once the result of a FAILED analysis is dropped, nothing of the target may stay referenced -
                    # without waiting for a cyclic collection (a handler that keeps the caught exception alive makes a cycle through
                    # its own traceback, which pins the inspected frame and everything on its value stack)
                    CASE[0] += 1
                    ns3 = {}
                    exec(compile("\n" * CASE[0] + src, f"<c20f:{pname}>", "exec"), ns3)
                    A3 = []
                    obj3 = ns3["fn"](M, Trap, A3)
                    for _ in range(point + 1): advance(kind, obj3)
                    act3 = list(A3)
                    gc_was = gc.isenabled(); gc.disable()
                    try:
                        # (the managers themselves are not counted: reading frame.f_locals leaves a snapshot dict cached IN the target
                        # frame object, which is how CPython <= 3.12 works for any inspector)
                        fr3 = frame_of(kind, obj3)
                        rc0 = [sys.getrefcount(fr3), sys.getrefcount(obj3)]
                        with inject(helper, k):
                            r3 = inspect(fr3, obj3)
                        r3 = None
                        rc1 = [sys.getrefcount(fr3), sys.getrefcount(obj3)]
                    finally:
                        if gc_was: gc.enable()
                    leg.case(key + ("refcounts",), True)
                    if rc1 != rc0:
                        leg.violation(key + ("refcounts",), f"after a failed analysis, with its result dropped and no cyclic collection run, the reference "
                                                            f"counts of the inspected frame / its generator went from {rc0} to {rc1}")
                    obj3.close()
# referents mode, no fault: a re-entrant manager entered twice (and three times, and interleaved with another one) in ONE frame is
# active that many times - equal bound methods are different registrations
ll.set_trickery_enabled(False)
REENTRANT = {
    "twice": ("gen", "def fn(M, T, A):\n    m = M('r')\n    with m:\n        with m:\n            A[:] = [m, m]; yield\n        A[:] = [m]; yield\n"),
    "thrice-interleaved": ("gen", "def fn(M, T, A):\n    m = M('r'); o = M('o')\n    with m:\n        with o:\n            with m:\n                with m:\n                    A[:] = [m, o, m, m]; yield\n"),
    "async-twice": ("coro", "async def fn(M, T, A):\n    m = M('r')\n    async with m:\n        async with m:\n            A[:] = [m, m]; await T()\n"),
}
for pname, (kind, src) in REENTRANT.items():
    ns = {}
    exec(compile(src, f"<c20r:{pname}>", "exec"), ns)
    A = []
    obj = ns["fn"](M, Trap, A)
    while advance(kind, obj):
        active = list(A)
        key = ("reentrant-manager-referents-mode", pname, len(active))
        leg.case(key, True)
        ctxs, exc, w = inspect(frame_of(kind, obj), obj)
        if exc is not None or w or not superset_in_order(ctxs, active) or len([c for c in ctxs if not c.is_exiting]) < len(active):
            leg.violation(key, f"referents mode: {[(c.obj, c.is_exiting) for c in ctxs] if ctxs is not None else None} for active managers {active} "
                               f"(raised={exc!r}, warnings={len(w or [])})")
ll.set_trickery_enabled(None)
leg.finish(exhaustive=True)
