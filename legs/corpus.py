"""Static corpus leg (C01 exit-site resolution, C08 metadata): every code object obtained by compiling every .py file of the
RUNNING interpreter's standard library (tests excluded).
 mode exits: for every exit site (each WITH_EXCEPT_START; each CALL 2 preceded by three LOAD_CONST None) a fake frame with
   that f_lasti is given to currently_exiting_context; contract: result is not None, names a handler known to
   analyze_with_blocks, and that block starts on the source line of the site's instruction (3.11+ positions).
 mode meta: for every function with `with` statements: every Context reported by analyze_with_blocks has start_line equal to
   the line of a with item in the ast, and varname None or parsing to the same expression as that item's `as` target;
   a target in the supported set is not dropped."""
import sys, os, dis, types, warnings, collections, ast
sys.path.insert(0, os.path.dirname(__file__))
from _leg import Leg
warnings.simplefilter("ignore")
from stackscope import _lowlevel as ll
MODE = sys.argv[1]
leg = Leg("corpus_" + MODE, "every code object of the running interpreter's standard library (tests excluded); non-trivial = code object "
                            "with a with statement; distinct by (file, function, first line)")
op = dis.opmap
def walk(code):
    yield code
    for k in code.co_consts:
        if isinstance(k, types.CodeType): yield from walk(k)
class FF:
    def __init__(s, code, lasti): s.f_code = code; s.f_lasti = lasti
root = os.path.dirname(os.__file__)
stats = collections.Counter()
def files():
    for d, _, fs in os.walk(root):
        if "test" in d.split(os.sep) or "lib2to3" in d or "site-packages" in d or "idlelib" in d: continue
        for f in sorted(fs):
            if f.endswith(".py"): yield os.path.join(d, f)

def norm(src):
    try: return ast.dump(ast.parse(src, mode="eval").body).replace("ctx=Load()", "ctx=X()").replace("ctx=Store()", "ctx=X()")
    except SyntaxError: return "SYNTAXERR:" + src
def tnorm(node):
    return ast.dump(node).replace("ctx=Load()", "ctx=X()").replace("ctx=Store()", "ctx=X()")
def supported(node):
    """documented supported target set: names, attributes, subscripts by constants or names, positional-only calls,
       (starred) tuple/list unpacking"""
    if isinstance(node, ast.Name): return True
    if isinstance(node, ast.Attribute): return supported(node.value)
    if isinstance(node, ast.Subscript): return supported(node.value) and isinstance(node.slice, (ast.Constant, ast.Name))
    if isinstance(node, ast.Call): return supported(node.func) and not node.keywords and all(isinstance(a, (ast.Name, ast.Constant)) for a in node.args)
    if isinstance(node, (ast.Tuple, ast.List)): return all(supported(e.value if isinstance(e, ast.Starred) else e) for e in node.elts)
    return False
class V(ast.NodeVisitor):
    def __init__(s): s.funcs = {}
    def visit_func(s, node):
        items = []
        def w(n):
            for ch in ast.iter_child_nodes(n):
                if isinstance(ch, (ast.FunctionDef, ast.AsyncFunctionDef, ast.Lambda, ast.ClassDef)): continue
                if isinstance(ch, (ast.With, ast.AsyncWith)):
                    for it in ch.items:
                        items.append((ch.lineno, tnorm(it.optional_vars) if it.optional_vars is not None else None,
                                      supported(it.optional_vars) if it.optional_vars is not None else False))
                w(ch)
        w(node)
        ln = node.lineno if not getattr(node, "decorator_list", None) else node.decorator_list[0].lineno
        s.funcs[(node.name, ln)] = items
    def generic_visit(s, node):
        if isinstance(node, (ast.FunctionDef, ast.AsyncFunctionDef)): s.visit_func(node)
        super().generic_visit(node)

for p in files():
    try:
        src = open(p, "rb").read(); top = compile(src, p, "exec")
        tree = ast.parse(src) if MODE == "meta" else None
    except Exception:
        continue
    if MODE == "meta":
        v = V(); v.visit(tree)
    for code in walk(top):
        insns = list(dis.get_instructions(code))
        has_with = any(i.opname in ("BEFORE_WITH", "BEFORE_ASYNC_WITH", "SETUP_WITH", "SETUP_ASYNC_WITH") for i in insns)
        if not has_with: continue
        key = (os.path.relpath(p, root), code.co_name, code.co_firstlineno)
        try: info = ll.analyze_with_blocks(code)
        except Exception as e:
            leg.case(key, True); leg.violation(key, f"analyze_with_blocks raised {e!r}"); continue
        if MODE == "meta":
            fk = (code.co_name, code.co_firstlineno)
            if fk not in v.funcs or code.co_name == "<module>" or not v.funcs[fk]: continue
            items = v.funcs[fk]
            leg.case(key, True, sample=dict(file=key[0], function=key[1], items=len(items)) if len(leg.samples) < 3 else None)
            for c in info.values():
                cands = [(t, sup) for (l, t, sup) in items if l == c.start_line]
                if not cands:
                    leg.violation(key, f"start_line {c.start_line} is not the line of any with statement {sorted(set(l for l, _, _ in items))}"); continue
                if c.varname is None:
                    if all(t is not None and sup for t, sup in cands):
                        leg.violation(key, f"line {c.start_line}: a target in the supported set was dropped")
                elif norm(c.varname) not in [t for t, _ in cands]:
                    leg.violation(key, f"line {c.start_line}: varname {c.varname!r} is not the `as` target")
            continue
        if sys.version_info < (3, 11):
            continue
        leg.case(key, True, sample=dict(file=key[0], function=key[1]) if len(leg.samples) < 3 else None)
        for idx, i in enumerate(insns):
            site = None
            if i.opname == "WITH_EXCEPT_START":
                site = ("exc", i.offset)
            elif i.opname == "CALL" and i.arg == 2:
                b = idx - 1 if insns[idx - 1].opname == "PRECALL" else idx
                if b >= 3 and all(insns[b - k].opname == "LOAD_CONST" and insns[b - k].argval is None for k in (1, 2, 3)):
                    site = ("norm", i.offset)
            if site is None: continue
            stats["sites_" + site[0]] += 1
            r = ll.currently_exiting_context(FF(code, site[1]))
            if r is None:
                leg.violation(key + site, "exit site not recognised / exiting block not resolved (None)")
            elif r.cleanup_offset not in info:
                leg.violation(key + site, f"exit site resolved to offset {r.cleanup_offset}, which is no with-handler")
            else:
                ln = i.positions.lineno if i.positions else None
                if ln is not None and info[r.cleanup_offset].start_line != ln:
                    leg.violation(key + site, f"exit site on line {ln} resolved to the with block of line {info[r.cleanup_offset].start_line}")
leg.extra.update(dict(stats))
leg.finish(exhaustive=True)
