"""C04 bounded native leg: StackSlice / extract_since / extract_until vs the true stack (manual f_back / greenlet.parent walk).
Bounds: call depth 5 in the main greenlet x all (outer, inner, limit) with outer/inner in the stack or None, limit in
{None,1..N+1}; nested greenlets (3 levels x depth 2) x all (outer, inner) x limit in {None,1,2,N,N+1}; parent chains with a dead
middle ancestor, a dead immediate parent and a never-started middle ancestor x all (outer, inner) x limit in {None,1,N}; called from a plain
function, from a running generator and from a running coroutine; extract_until with int and frame limits."""
import sys, os, itertools
sys.path.insert(0, os.path.dirname(__file__))
from _leg import Leg, THOROUGH
import greenlet, stackscope
from stackscope import StackSlice, extract, extract_since, extract_until

leg = Leg("c04_slices", "full cross product of (outer, inner, limit) over the true stack at depth 5 (main greenlet), over 3 nested "
                        "greenlets and over parent chains with a dead immediate parent / dead middle ancestor / never-started middle "
                        "ancestor; callers: plain function, running generator, running coroutine; non-trivial = outer or inner or limit given")


def truth(start):
    out = []; g = greenlet.getcurrent(); f = start
    while g is not None:
        while f is not None: out.append(f); f = f.f_back
        g = g.parent
        if g is not None: f = g.gr_frame
    return out[::-1]


def check(tag, limits=None):
    me = sys._getframe(0)
    T = truth(me); N = len(T); cands = [None] + T
    lims = limits(N) if limits else [None] + list(range(1, N + 2))
    for o, i, lim in itertools.product(cands, cands, lims):
        lo = 0 if o is None else T.index(o); hi = N - 1 if i is None else T.index(i)
        if lo > hi:
            continue      # outer inward of inner: unspecified
        key = (tag, lo if o is not None else None, hi if i is not None else None, lim)
        leg.case(key, not (o is None and i is None and lim is None), sample=dict(where=tag, outer=key[1], inner=key[2], limit=lim) if len(leg.samples) < 4 and lim == 2 and o is not None else None)
        s = extract(StackSlice(outer=o, inner=i, limit=lim))
        exp = T[lo:hi + 1]
        if lim is not None and len(exp) > lim:
            # a limit keeps the frames nearest the given anchor: outer if only outer is given, otherwise inner / the caller
            exp = exp[:lim] if (i is None and o is not None) else exp[-lim:]
        got = [f.pyframe for f in s.frames]
        if got != exp or s.error is not None:
            leg.violation(key, f"{tag}: outer={key[1]} inner={key[2]} limit={lim}: got {[f.f_code.co_name for f in got]} expected {[f.f_code.co_name for f in exp]} error={s.error!r}")
    # extract_since(None): the whole thread stack down to the caller, no stackscope frames
    s = extract_since(None)
    got = [f.pyframe for f in s.frames]
    leg.case((tag, "since-none"), True)
    if got != T or any((f.f_globals.get("__name__") or "").startswith("stackscope.") for f in got):
        leg.violation((tag, "since-none"), f"extract_since(None) != true stack: {[f.f_code.co_name for f in got]}")
    # extract_until: int limit and frame limit
    for k in range(1, N + 1):
        leg.case((tag, "until-int", k), True)
        s = extract_until(me, limit=k)
        if [f.pyframe for f in s.frames] != T[-k:]:
            leg.violation((tag, "until-int", k), "extract_until(me, limit=k) is not the k frames nearest me")
    chain = []; f = me
    while f is not None: chain.append(f); f = f.f_back
    for fr in chain:
        leg.case((tag, "until-frame", chain.index(fr)), True)
        s = extract_until(me, limit=fr)
        if [f.pyframe for f in s.frames] != T[T.index(fr):]:
            leg.violation((tag, "until-frame", chain.index(fr)), "extract_until(me, limit=frame) does not start at that frame")


def rec(d, then):
    if d == 0: then()
    else: rec(d - 1, then)


rec(4, lambda: check("plain"))


def gen_caller():
    check("running-generator", lambda N: [None, 1, 2, N, N + 1])
    yield


def coro_caller():
    async def co():
        check("running-coroutine", lambda N: [None, 1, 2, N, N + 1])
    c = co()
    try: c.send(None)
    except StopIteration: pass


rec(2, lambda: next(gen_caller()))
rec(2, coro_caller)


# callers that live in modules whose names merely LOOK like the package's: they are the user's code, the stack ends with them
for modname in ("stackscope_helpers", "stackscopeviz.render", "stackscope", "stackscopes.sub", "xstackscope.y", "stackscope._tests.x", ""):
    ns = {"__name__": modname, "extract_since": extract_since, "extract": extract, "StackSlice": StackSlice, "sys": sys}
    exec("def call():\n    me = sys._getframe(0)\n    return me, extract_since(None), extract(StackSlice(outer=sys._getframe(1)))\n"
         "def via():\n    return call()\n", ns)
    me_, s1, s2 = ns["via"]()
    leg.case(("caller-module", modname), True)
    if not s1.frames or s1.frames[-1].pyframe is not me_ or s1.error is not None:
        leg.violation(("caller-module", modname), f"extract_since(None) called from a module named {modname!r} does not end with the calling frame: "
                                                  f"{[f.funcname for f in s1.frames][-3:]} error={s1.error!r}")
    if [f.funcname for f in s2.frames] != ["via", "call"] or s2.error is not None:
        leg.violation(("caller-module", modname), f"StackSlice(outer=<caller's caller>) called from a module named {modname!r}: "
                                                  f"{[f.funcname for f in s2.frames]} error={s2.error!r}")


def level(k):
    def body():
        if k == 0:
            check("greenlets", lambda N: [None, 1, 2, N, N + 1])
        else:
            g = greenlet.greenlet(lambda: rec(2, lambda: level(k - 1)()))
            g.switch()
    return body


rec(1, level(2))

# the program's OWN functools.singledispatch functions on the calling stack: their wrapper frames are the user's frames (only the
# wrapper frames of stackscope's own hook dispatchers are internal), on the main greenlet and inside a child greenlet
import functools


@functools.singledispatch
def via_dispatch(x, then):
    return then()


@via_dispatch.register(int)
def _via_int(x, then):
    return via_dispatch("s", then)


def sd_chain(then):
    return via_dispatch(1, then)


sd_chain(lambda: check("user-singledispatch", lambda N: [None, 1, 2, N]))
gsd = greenlet.greenlet(lambda: rec(1, lambda: sd_chain(lambda: check("user-singledispatch-in-greenlet", lambda N: [None, 1, 2, N]))))
gsd.switch()


# parent chains with an ancestor that has no frame: dead (finished) or never started.  An exception raised in the innermost
# greenlet propagates past such an ancestor to ITS parent, so the ancestor contributes nothing and the walk goes on.
def topology(tag, dead_immediate, dead_middle, unstarted_middle):
    hold = {}
    def inner():
        rec(1, lambda: check(tag, lambda N: [None, 1, N]))
    def mid():            # alive, suspended in inner.switch()
        g = greenlet.greenlet(inner)
        g.switch()
    def maker():          # creates the greenlet(s) whose parent is `maker` itself, then finishes: a dead ancestor
        hold["child"] = greenlet.greenlet(inner if dead_immediate else mid)
    gm = greenlet.greenlet(maker)
    if unstarted_middle:
        # a greenlet that never runs, spliced into the chain as parent of `mid`
        never = greenlet.greenlet(lambda *a: None)
        child = greenlet.greenlet(mid)
        child.parent = never
        child.switch()
        return
    gm.switch()
    assert gm.dead
    hold["child"].switch()


rec(1, lambda: topology("greenlets-dead-middle-ancestor", False, True, False))
rec(1, lambda: topology("greenlets-dead-immediate-parent", True, False, False))
rec(1, lambda: topology("greenlets-unstarted-middle-ancestor", False, False, True))
# history: the first extraction of the process happens BEFORE greenlet is imported; later, inside nested greenlets, the stack
# still continues through the greenlet parents (fresh subprocess: this one has greenlet loaded from the start)
import subprocess
LATE_GREENLET = r"""
import sys, stackscope
from stackscope import extract_since
def early(): return extract_since(None)      # before the PROGRAM imports greenlet (whether the library did is its own business)
first = early()
import greenlet
out = {}
def truth(f):
    res = []; g = greenlet.getcurrent()
    while g is not None:
        while f is not None: res.append(f); f = f.f_back
        g = g.parent
        if g is not None: f = g.gr_frame
    return res[::-1]
def inner():
    me = sys._getframe(0)
    out["got"] = [f.pyframe for f in extract_since(None).frames]; out["want"] = truth(me)
def mid():
    greenlet.greenlet(inner).switch()
def top():
    greenlet.greenlet(mid).switch()
top()
ok = out["got"] == out["want"] and len(out["want"]) >= 4 and [f.funcname for f in first.frames][-1] == "early"
print("RESULT", ok, [f.f_code.co_name for f in out["got"]], [f.f_code.co_name for f in out["want"]])
sys.exit(0 if ok else 1)
"""
leg.case("greenlet-imported-after-the-first-extraction", True)
pr = subprocess.run([sys.executable, "-c", LATE_GREENLET], capture_output=True, text=True, timeout=120, env=dict(os.environ))
if pr.returncode != 0:
    leg.violation("greenlet-imported-after-the-first-extraction", "fresh process, an extraction before `import greenlet`, then extract_since(None) two greenlets deep: "
                  + (pr.stdout.strip().splitlines() or [pr.stderr.strip()[-300:]])[-1][:500])

# a stitched stack much longer than the recursion limit in force: the asker is a shallow greenlet whose PARENT is parked 400 frames
# deep (a limit bounds how deep one may recurse, not how long a stack that spans greenlets may be)
def deep_scenario():
    res = {}
    def descend(n, then):
        return then() if n == 0 else descend(n - 1, then)
    def parent_body():
        descend(400, lambda: greenlet.getcurrent().parent.switch())
    def worker():
        old = sys.getrecursionlimit()
        sys.setrecursionlimit(max(150, len(truth(sys._getframe(0))) // 3))
        try:
            st = extract_since(None)
        finally:
            sys.setrecursionlimit(old)
        res["got"] = [f.pyframe for f in st.frames]; res["err"] = st.error
        res["want"] = truth(sys._getframe(0))
    P = greenlet.greenlet(parent_body); P.switch()            # parked 400 deep, back here
    W = greenlet.greenlet(worker, parent=P)
    try:
        W.switch()
    except BaseException as e:
        res["raised"] = e
    return res
leg.case("stitched-stack-longer-than-the-recursion-limit", True)
try:
    rd = deep_scenario()
except RecursionError as e:
    rd = {"skip": e}
if "skip" not in rd and (rd.get("err") is not None or rd.get("got") is None or rd.get("got") != rd.get("want")):
    leg.violation("stitched-stack-longer-than-the-recursion-limit", f"extract_since(None) from a shallow greenlet whose parent is parked 400 deep, recursion limit lowered: "
                  f"{len(rd.get('got') or [])} frames, expected {len(rd.get('want') or [])}; error={rd.get('err')!r} raised={rd.get('raised')!r}")

# an ancestor greenlet parked INSIDE a generator / coroutine frame: the same suspended frame object is re-driven by different
# callers between two extractions made from the child greenlet, so its f_back (and the outer part of the true stack) changes
# while greenlet.gr_frame stays the same object (added after seed C04-ancestor-frames-cached-weakly)
def redriven_scenario():
    seen = []
    def asker():
        while True:
            me = sys._getframe(0)
            T = truth(me)
            st = extract_since(None); su = extract_until(me); sl = extract(StackSlice(outer=T[0], inner=me, limit=3))
            seen.append(([f.f_code.co_name for f in T], T, [x.pyframe for x in st.frames], [x.pyframe for x in su.frames],
                         [x.pyframe for x in sl.frames], (st.error, su.error, sl.error)))
            greenlet.getcurrent().parent.switch()
    A = greenlet.greenlet(asker)
    def gen():
        while True:
            A.switch(); yield
    class Susp:
        def __await__(self): yield
    A2 = greenlet.greenlet(asker)
    async def inner_c():
        while True:
            A2.switch(); await Susp()
    async def outer_c(): await inner_c()
    def shallow(step): step()
    def deep(step):
        def helper(): step()
        helper()
    g = gen(); c = outer_c()
    for drv in (shallow, shallow, deep, shallow):
        drv(lambda: next(g))
    for drv in (shallow, deep, shallow):
        drv(lambda: c.send(None))
    return seen
for n_, (names, T, got_since, got_until, got_lim, errs) in enumerate(redriven_scenario()):
    key = ("ancestor-parked-in-a-redriven-generator-or-coroutine", n_)
    leg.case(key, True)
    if got_since != T or got_until != T or got_lim != T[-3:] or any(e is not None for e in errs):
        leg.violation(key, f"extraction #{n_} from a child greenlet whose ancestor is parked in a generator/coroutine frame re-driven by another caller: true stack {names}, "
                           f"extract_since(None) gave {[f.f_code.co_name for f in got_since]}, extract_until {[f.f_code.co_name for f in got_until]}, errors {errs!r}")

# nested generators re-driven by different callers, no greenlet involved: the asking frame and its immediate f_back (the outer
# generator's frame) are the SAME objects on every call, only the callers further out change (added after seed
# C04-fback-walk-memoised-by-inner-and-fback)
def nested_generators_scenario():
    seen = []
    def inner_gen():
        while True:
            me = sys._getframe(0)
            T = truth(me)
            st = extract_since(None); su = extract_until(me); s2 = extract_until(me, limit=2)
            seen.append(([f.f_code.co_name for f in T], T, [x.pyframe for x in st.frames], [x.pyframe for x in su.frames], [x.pyframe for x in s2.frames],
                         (st.error, su.error, s2.error)))
            yield
    def outer_gen():
        yield from inner_gen()
    def driver_a(g): next(g)
    def driver_b(g): next(g)
    def via_b(g): driver_b(g)
    g = outer_gen()
    driver_a(g); via_b(g); driver_a(g); via_b(g)
    return seen
for n_, (names, T, got_since, got_until, got2, errs) in enumerate(nested_generators_scenario()):
    key = ("nested-generators-redriven-by-another-caller", n_)
    leg.case(key, True)
    if got_since != T or got_until != T or got2 != T[-2:] or any(e is not None for e in errs):
        leg.violation(key, f"call #{n_} from a generator driven through `yield from` by an outer generator that different callers resume: true stack {names}, "
                           f"extract_since(None) gave {[f.f_code.co_name for f in got_since]}, extract_until {[f.f_code.co_name for f in got_until]}, errors {errs!r}")
leg.finish(exhaustive=True)
