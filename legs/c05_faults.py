"""C05 bounded native leg (fault enumeration): for every extraction scenario below, an exception is injected at the k-th
dynamic invocation of each hook kind, for every k, then PAIRS of faults (bounded); contract: extract returns a Stack, every
injected exception that was actually raised is retrievable (by identity) from the error tree of the result, frames outward
of the failure equal the fault-free extraction, and the result formats and summarises.
Bounds: 11 scenarios; hooks {unwrap_stackitem, FrameIterator.__next__, elaborate_frame, contexts_active_in_frame,
elaborate_context, unwrap_context}; all single faults; pairs (k1<k2) of the same or different hook kinds, capped."""
import sys, os, types, contextlib, threading, itertools
sys.path.insert(0, os.path.dirname(__file__))
from _leg import Leg, THOROUGH
import stackscope
from stackscope import _extract as E, _customization as Cu

leg = Leg("c05_faults", "11 scenarios x 6 hook kinds x every dynamic invocation index (single faults, exhaustive) + bounded pairs; "
                        "non-trivial = fault actually raised; distinct by (scenario, hook, k)")


class Inj(Exception):
    pass


@types.coroutine
def trap():
    yield


class Probe:
    def __init__(s, n): s.n = n
    def __enter__(s): return s
    def __exit__(s, *a): return False
    def __repr__(s): return f"<Probe {s.n}>"


@contextlib.contextmanager
def gen_cm():
    with Probe("in-gcm"):
        yield


@contextlib.asynccontextmanager
async def acm():
    async with contextlib.AsyncExitStack() as st:
        st.enter_context(Probe("a"))
        st.enter_context(gen_cm())
        st.callback(print)
        st.enter_context(Probe("b"))
        yield


@contextlib.contextmanager
def cm():
    with contextlib.ExitStack() as es:
        es.enter_context(contextlib.nullcontext())
        yield


async def inner():
    with cm():
        async with acm():
            await trap()


async def outer():
    async with acm():
        await inner()


def scenario_coro():
    c = outer(); c.send(None); return c, (lambda: c.close())


def scenario_thread():
    ev, ready = threading.Event(), threading.Event()
    def thr_fn():
        with cm():
            ready.set(); ev.wait()
    t = threading.Thread(target=thr_fn); t.start(); ready.wait()
    return t, (lambda: (ev.set(), t.join()))


def scenario_slice():
    return stackscope.StackSlice(), (lambda: None)


class Custom:
    pass


@stackscope.unwrap_stackitem.register(Custom)
@stackscope.yields_frames
def _unwrap_custom(x):
    yield CUSTOM_FRAME
    yield CUSTOM_GEN
    yield CUSTOM_LEAF


def _mkframe():
    return sys._getframe(0)


CUSTOM_FRAME = _mkframe()
CUSTOM_GEN = (i for i in range(3)); next(CUSTOM_GEN)
CUSTOM_LEAF = object()


def scenario_custom():
    return Custom(), (lambda: None)


class CustomPlainIter:
    pass


class _HandIter:
    """a hand-written iterator: __iter__ / __next__ and nothing else (no close, no send, no throw)"""
    def __init__(s, items): s.items = list(items)
    def __iter__(s): return s
    def __next__(s):
        if not s.items: raise StopIteration
        return s.items.pop(0)


KIND = ["chain"]


@stackscope.unwrap_stackitem.register(CustomPlainIter)
@stackscope.yields_frames
def _unwrap_plain(x):
    # documented use of yields_frames: the decorated function returns an ITERATOR of stack items - any iterator
    if KIND[0] == "chain":
        return itertools.chain([CUSTOM_FRAME], [CUSTOM_GEN])
    if KIND[0] == "map":
        return map(lambda y: y, [CUSTOM_FRAME, CUSTOM_GEN])
    return _HandIter([CUSTOM_FRAME, CUSTOM_GEN])


def scenario_plain_iterator_chain():
    KIND[0] = "chain"
    return CustomPlainIter(), (lambda: None)


def scenario_plain_iterator_hand():
    KIND[0] = "hand"
    return CustomPlainIter(), (lambda: None)


class Hostile:
    """a perfectly legal stack item whose comparison / truth / container protocol all raise: the traversal has no business calling
    any of them (items are handled by identity and type)"""
    def _no(s, *a): raise TypeError("this object does not support that")
    __eq__ = __ne__ = __bool__ = __len__ = __iter__ = __getitem__ = __contains__ = __lt__ = __gt__ = _no
    __hash__ = None
    def __repr__(s): return "<Hostile>"


HOSTILE = Hostile()


def _mkframe_h():
    return sys._getframe(0)


HOSTILE_FRAME = _mkframe_h()


class CustomHostile:
    pass


@stackscope.unwrap_stackitem.register(CustomHostile)
def _unwrap_hostile(x):
    return (CUSTOM_FRAME, HOSTILE_FRAME, CUSTOM_GEN)


@stackscope.elaborate_frame.register(_mkframe_h)
def _elab_hostile(frame, next_inner):
    return HOSTILE                 # redirect: the rest of the stack is replaced by this (unwrappable-no-further) object


def scenario_hostile_item():
    return CustomHostile(), (lambda: None)


STORED = {}


def scenario_stored_exception():
    # the fault a hook raises is an OLD exception that the (still suspended) target itself caught and kept: its traceback refers
    # to the target's own frames.  Recording it must not touch those frames (clearing a suspended frame closes the coroutine)
    async def inner_s():
        try:
            raise LookupError("kept by the target")
        except LookupError as e:
            STORED["exc"] = e
        with Probe("after-store"):
            await trap()
    async def outer_s():
        with Probe("outer-s"):
            await inner_s()
    c = outer_s(); c.send(None)
    STORED["coro"] = c
    STORED["inner"] = c.cr_await
    return c, (lambda: c.close())


scenario_stored_exception.exc_factory = lambda label, k: STORED["exc"]
scenario_stored_exception.after = lambda: (None if (STORED["coro"].cr_frame is not None and STORED["inner"].cr_frame is not None)
                                           else "a suspended coroutine of the target was closed / unwound by the extraction")


def scenario_nonstack():
    return 42, (lambda: None)


class InnerMgr(Probe):
    pass


INNER_MGR = InnerMgr("unwrapped-to")


@contextlib.contextmanager
def unwrapped_cm():
    with INNER_MGR:
        yield


@stackscope.unwrap_context_generator.register(unwrapped_cm.__wrapped__)
def _unwrap_to_inner(frame, ctx):
    return INNER_MGR          # "the real manager is the one inside": the generator-based wrapper is replaced


@contextlib.contextmanager
def pruned_cm():
    with Probe("inside-pruned"):
        yield


@stackscope.unwrap_context_generator.register(pruned_cm.__wrapped__)
def _prune_wrapper(frame, ctx):
    return stackscope.PRUNE      # "uninteresting plumbing": the context is hidden, but it stays in the tree with its inner stack


def scenario_pruned_gcm():
    # a generator-based manager that a hook HIDES (PRUNE): nothing is replaced, so the context keeps its inner stack, and a fault
    # recorded in that nested extraction must stay retrievable there (added after seed C05-prune-discards-inner-stack-error)
    def user():
        with pruned_cm():
            yield
    g = user(); next(g)
    return g, (lambda: g.close())


def scenario_unwrapped_gcm():
    # a generator-based manager whose registered unwrapper SUCCEEDS: fill_context replaces obj and resets inner_stack/children.
    # Faults inside the nested extraction of the manager's generator are recorded in that inner stack first.
    def user():
        with unwrapped_cm():
            yield
    g = user(); next(g)
    return g, (lambda: g.close())


@contextlib.asynccontextmanager
async def exiting_acm():
    try:
        yield
    finally:
        with Probe("in-exit"):
            await trap()


@stackscope.unwrap_context_generator.register(exiting_acm.__wrapped__)
def _unwrap_exiting(frame, ctx):
    return INNER_MGR


def scenario_exiting_gcm():
    # a generator-based manager with a registered unwrapper, observed WHILE IT IS EXITING: there is no inner stack, the glue
    # extracts the generator's outermost frame itself (a nested extract_outermost): a fault met there is a fault, not "no frames"
    async def user():
        async with exiting_acm():
            pass
    c = user(); c.send(None)
    return c, (lambda: c.close())


HOOKS = [("unwrap_stackitem", E, "unwrap_stackitem"), ("elaborate_frame", E, "elaborate_frame"), ("elaborate_context", E, "elaborate_context"),
         ("unwrap_context", E, "unwrap_context"), ("contexts_active_in_frame", E, "contexts_active_in_frame"),
         ("FrameIterator.__next__", Cu.FrameIterator, "__next__")]


def all_errors(stack, acc):
    if stack.error is not None: acc.append(stack.error)
    for f in stack.frames:
        for c in f.contexts: ctx_errors(c, acc)


def ctx_errors(c, acc):
    if c.inner_stack is not None: all_errors(c.inner_stack, acc)
    for ch in c.children:
        if isinstance(ch, stackscope.Stack): all_errors(ch, acc)
        else: ctx_errors(ch, acc)


def contains(err, target):
    return err is target or any(contains(e, target) for e in getattr(err, "exceptions", ()))


class Injector:
    """counts invocations of each hook; raises the planned exceptions at the planned (hook, k)"""
    def __init__(s, plan):
        s.plan = plan          # {(label, k): exc}
        s.count = {}
        s.raised = []
        s.orig = {}
    def __enter__(s):
        # nested extract_outermost calls made by glue: which injected faults were raised inside one that then RETURNED a frame
        # (such a fault was recorded in that call's private error list, which a Frame cannot carry: finding F19)
        s.eo_orig = E.extract_outermost
        s.eo_stack = []
        s.dropped_by_eo = []
        def eo_wrapper(*a, **kw):
            s.eo_stack.append([])
            try:
                r = s.eo_orig(*a, **kw)
            except BaseException:
                s.eo_stack.pop()
                raise
            s.dropped_by_eo += s.eo_stack.pop()
            return r
        E.extract_outermost = eo_wrapper
        for label, mod, name in HOOKS:
            orig = getattr(mod, name)
            s.orig[label] = (mod, name, orig)
            def mk(orig=orig, label=label):
                def wrapper(*a, **kw):
                    s.count[label] = s.count.get(label, 0) + 1
                    exc = s.plan.get((label, s.count[label]))
                    if exc is not None:
                        s.raised.append(exc)
                        if s.eo_stack: s.eo_stack[-1].append(exc)
                        raise exc
                    return orig(*a, **kw)
                for attr in ("register", "dispatch", "registry"):
                    if hasattr(orig, attr): setattr(wrapper, attr, getattr(orig, attr))
                return wrapper
            setattr(mod, name, mk())
        return s
    def __exit__(s, *a):
        E.extract_outermost = s.eo_orig
        for label, (mod, name, orig) in s.orig.items():
            setattr(mod, name, orig)


def run(item, plan):
    with Injector(plan) as inj:
        try:
            return stackscope.extract(item), inj
        except BaseException as e:
            return e, inj


def check(scen_name, item, basepy, plan_desc, plan):
    st, inj = run(item, plan)
    if basepy is None:
        inj.base = st
        return None, inj
    if isinstance(st, BaseException):
        return f"extract raised {st!r}", inj
    errs = []; all_errors(st, errs)
    lost = [x for x in inj.raised if not any(contains(e, x) for e in errs)]
    if lost and all(any(x is y for y in inj.dropped_by_eo) for x in lost):
        return f"F19: raised inside a nested extract_outermost that returned its frame, not retrievable from any .error: {lost!r}", inj
    if lost:
        return f"raised but not retrievable from any .error: {lost!r} (reported: {[repr(e)[:50] for e in errs]})", inj
    got = [f.pyframe for f in st.frames]
    if scen_name == "scenario_slice":
        # the running stack contains this harness's own frames, which are new objects on every call: compare code objects
        got = [f.f_code for f in got]
        basepy = [f.f_code for f in basepy]
    if got != basepy[:len(got)]:
        return "frames are not a prefix of the fault-free extraction", inj
    try:
        str(st); st.format(ascii_only=True); st.as_stdlib_summary(show_contexts=True); st.format_flat(show_contexts=True)
    except BaseException as e:
        return f"result cannot be formatted/summarised: {e!r}", inj
    return None, inj


def check_base(item):
    # same call depth as check() -> run(): the running-stack scenario sees the same harness frames
    return run(item, {})


PAIR_CAP = 4000 if THOROUGH else 700
SEEN_F11 = []
SEEN_F19 = []
for scen in (scenario_coro, scenario_thread, scenario_slice, scenario_custom, scenario_nonstack, scenario_unwrapped_gcm, scenario_pruned_gcm, scenario_exiting_gcm,
             scenario_plain_iterator_chain, scenario_plain_iterator_hand, scenario_hostile_item,
             scenario_stored_exception):
    item, cleanup = scen()
    try:
        _, inj0 = check(scen.__name__, item, None, None, {})
        base = inj0.base
        leg.case((scen.__name__, "fault-free"), True)
        if isinstance(base, BaseException):
            leg.violation(f"{scen.__name__}:fault-free", f"extract() raised {base!r} with no fault injected at all")
            continue
        basepy = [f.pyframe for f in base.frames]
        totals = dict(inj0.count)
        singles = [(label, k) for label, _, _ in HOOKS for k in range(1, totals.get(label, 0) + 1)]
        for label, k in singles:
            exc = scen.exc_factory(label, k) if hasattr(scen, "exc_factory") else Inj(f"{label}@{k}")
            msg, inj = check(scen.__name__, item, basepy, (label, k), {(label, k): exc})
            if not msg and hasattr(scen, "after"):
                msg = scen.after()
            leg.case((scen.__name__, label, k), bool(inj.raised), sample=dict(scenario=scen.__name__, hook=label, k=k) if k == 2 and len(leg.samples) < 5 else None)
            if msg and msg.startswith("F19:"):
                if not SEEN_F19:
                    SEEN_F19.append(1)
                    leg.violation("fault-recorded-by-nested-extract_outermost-dropped", f"{scen.__name__}:{label}@{k}: {msg}")
            elif msg:
                # one canonical key for "an error recorded in an inner stack is thrown away when the unwrap succeeds" (finding F11);
                # any other failure of this scenario keeps its own key
                if scen is scenario_unwrapped_gcm and msg.startswith("raised but not retrievable"):
                    if not SEEN_F11:
                        SEEN_F11.append(1)
                        leg.violation("inner-stack-error-discarded-by-successful-unwrap", f"{scen.__name__}:{label}@{k}: {msg}")
                else:
                    leg.violation(f"{scen.__name__}:{label}@{k}", msg)
        # two faults whose exceptions compare EQUAL (value-like exception classes) are still two faults: each retrievable by identity
        class EqInj(Exception):
            def __eq__(s, o): return type(o) is type(s)
            def __hash__(s): return 7
        for (l1, k1), (l2, k2) in list(itertools.combinations(singles, 2))[:: max(1, len(singles) * (len(singles) - 1) // 2 // 40)][:40]:
            if hasattr(scen, "exc_factory"):
                break
            plan = {(l1, k1): EqInj("same"), (l2, k2): EqInj("same")}
            msg, inj = check(scen.__name__, item, basepy, ((l1, k1), (l2, k2)), plan)
            leg.case((scen.__name__, "equal-exceptions", l1, k1, l2, k2), len(inj.raised) == 2)
            if msg and not msg.startswith("F19:") and not (scen is scenario_unwrapped_gcm and msg.startswith("raised but not retrievable")):
                leg.violation(f"{scen.__name__}:equal-exceptions:{l1}@{k1}+{l2}@{k2}", msg)
        pairs = list(itertools.combinations(singles, 2))
        step = max(1, len(pairs) // PAIR_CAP)
        for (l1, k1), (l2, k2) in pairs[::step]:
            plan = {(l1, k1): Inj(f"{l1}@{k1}"), (l2, k2): Inj(f"{l2}@{k2}")}
            msg, inj = check(scen.__name__, item, basepy, ((l1, k1), (l2, k2)), plan)
            leg.case((scen.__name__, l1, k1, l2, k2), len(inj.raised) == 2)
            if msg and not msg.startswith("F19:") and not (scen is scenario_unwrapped_gcm and msg.startswith("raised but not retrievable")):
                leg.violation(f"{scen.__name__}:{l1}@{k1}+{l2}@{k2}", msg)
    finally:
        cleanup()
# hostile entries in sys.modules: the glue scan looks at every module; whatever an entry does when looked at, extract returns a Stack
import importlib.util, importlib.machinery
class RaisingDict:
    @property
    def __dict__(self): raise RuntimeError("no __dict__ for you")
class RaisingGetattr:
    def __getattr__(self, n): raise OSError("lazy import failed: " + n)
def lazy_broken():
    spec = importlib.machinery.ModuleSpec("zz_lazy_broken", None)
    class L(importlib.abc.Loader):
        def create_module(s, spec): return None
        def exec_module(s, module): raise ImportError("deferred import fails")
    spec.loader = importlib.util.LazyLoader(L())
    return importlib.util.module_from_spec(spec)
import importlib.abc
for name, make in (("zz_raising_dict", RaisingDict), ("zz_raising_getattr", RaisingGetattr), ("zz_lazy_broken", lazy_broken), ("zz_none", lambda: None)):
    leg.case(("hostile-module", name), True)
    try:
        sys.modules[name] = make()
        import warnings as _w
        with _w.catch_warnings():
            _w.simplefilter("ignore")
            g_ = (lambda: (yield))(); next(g_)
            st = stackscope.extract(g_)
        if not isinstance(st, stackscope.Stack) or not st.frames:
            leg.violation(("hostile-module", name), f"extract with a hostile sys.modules entry returned {st!r}")
    except BaseException as e:
        leg.violation(("hostile-module", name), f"extract raised {e!r} because of a sys.modules entry that cannot be inspected")
    finally:
        sys.modules.pop(name, None)
leg.finish()
