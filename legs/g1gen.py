"""Program family G1: function bodies built from with / async with (1..2 items, with / without `as`), try/except, try/finally,
if / if-else, for / while, and every way of leaving a block (fall-through, return const, return value, raise, break,
continue, swallowed exception).  Exhaustive up to a nesting depth; three function kinds."""
import itertools


def stmts(depth, in_loop, kind, plan=None):
    """plan (optional): dict depth -> "with" | "ctl": restricts which compound statements may appear at that nesting depth
    (used for the depth-3 'sandwich' slice: with > control statement > with > leaf)"""
    want = (plan or {}).get(depth)
    susp = {"coro": "await ay('p')", "gen": "yield 'p'", "agen": "yield 'p'"}[kind]
    yield ([susp], 0, 0)
    if kind == "agen":
        yield (["await ay('a')"], 0, 0)
    yield (["return 5"] if kind == "coro" else ["return"], 0, 0)
    if kind == "coro":
        yield (["return ident(6)"], 0, 0)
    yield (["raise KeyError"], 0, 0)
    if in_loop:
        yield (["break"], 0, 0)
        yield (["continue"], 0, 0)
    if depth <= 0:
        return
    h = {"coro": "await ay('h')", "gen": "yield 'h'", "agen": "yield 'h'"}[kind]
    for body in (bodies(depth - 1, in_loop, kind, plan) if want != "ctl_loop_only" else ()):
        bl, bc, bm = body
        ind = ["    " + l for l in bl]
        if want == "ctl":
            pass
        elif kind in ("coro", "agen") and plan:
            yield (["async with M(@M@) as v@M@:"] + ind, bc, bm + 1)      # slim set of with forms inside a planned slice
        elif kind in ("coro", "agen"):
            yield (["async with M(@M@) as v@M@:"] + ind, bc, bm + 1)
            yield (["async with MS(@M@) as v@M@:"] + ind, bc, bm + 1)   # swallowing
            yield (["async with M(@M@) as v@M@, M(@M2@) as v@M2@:"] + ind, bc, bm + 2)
            yield (["async with M(@M@):"] + ind, bc, bm + 1)             # no `as` target
        if want != "ctl":
            yield (["with S(@M@) as v@M@:"] + ind, bc, bm + 1)
        if kind == "gen" and want != "ctl" and not plan:
            yield (["with SS(@M@) as v@M@:"] + ind, bc, bm + 1)
            yield (["with S(@M@) as v@M@, S(@M2@) as v@M2@:"] + ind, bc, bm + 2)
            yield (["with S(@M@):"] + ind, bc, bm + 1)
        if want == "with":
            continue
        yield (["try:"] + ind + ["except KeyError:", "    " + h], bc, bm)
        yield (["try:"] + ind + ["except KeyError:", "    raise"], bc, bm)        # every handler leaves the block
        yield (["try:"] + ind + ["finally:", "    " + h.replace("'h'", "'f'")], bc, bm)
        yield (["if C[@C@]:"] + ind, bc + 1, bm)
        yield (["if C[@C@]:"] + ind + ["else:", "    " + h.replace("'h'", "'e'")], bc + 1, bm)
        if bm and not plan:
            # a with statement in a COLD region: inside a finally clause / an except handler
            yield (["try:", "    " + h.replace("'h'", "'t'"), "finally:"] + ind, bc, bm)
            yield (["try:", "    raise KeyError", "except KeyError:"] + ind, bc, bm)
    for body in (bodies(depth - 1, True, kind, plan) if want != "with" else ()):
        bl, bc, bm = body
        ind = ["    " + l for l in bl]
        yield (["for _i in range(2):"] + ind, bc, bm)
        yield (["while tick():"] + ind, bc, bm)


def bodies(depth, in_loop, kind, plan=None):
    one = list(stmts(depth, in_loop, kind, plan))
    for s in one:
        yield s
    q = {"coro": "await ay('q')", "gen": "yield 'q'", "agen": "yield 'q'"}[kind]
    simple = [([q], 0, 0), (["return 7"] if kind == "coro" else ["return"], 0, 0)] + ([(["break"], 0, 0)] if in_loop else [])
    for a in one:
        if a[0][0].startswith(("return", "raise", "break", "continue")):
            continue
        for b in simple:
            yield (a[0] + b[0], a[1] + b[1], a[2] + b[2])


def number(lines):
    out = []; m = 0; c = 0
    for l in lines:
        while "@M@" in l or "@M2@" in l or "@C@" in l:
            if "@M@" in l:
                m += 1; l = l.replace("@M@", str(m))
            if "@M2@" in l:
                m += 1; l = l.replace("@M2@", str(m))
            if "@C@" in l:
                l = l.replace("@C@", str(c), 1); c += 1
        out.append(l)
    return out, m, c


SANDWICH = {3: "with", 2: "ctl", 1: "with"}      # with > if/try/loop > with > leaf (+ trailing simple statements at each level)


WIDE = ['"""docstring: takes constant slot 0, so None is no longer among the first 256 constants"""'] + [f"_p = {1000 + i}" for i in range(300)]


def programs(maxd=2, kinds=("coro", "gen", "agen"), sandwich=True):
    for kind in kinds:
        seen = set()
        head = {"coro": "async def prog():", "gen": "def prog():", "agen": "async def prog():"}[kind]
        if sandwich and maxd == 2:
            # WIDE variants: the depth-1 programs again, behind 300 distinct constants (LOAD_CONST None needs EXTENDED_ARG, jumps
            # grow): layout-sensitive analyses must not care
            for bl, bc, bm in itertools.chain(bodies(1, False, kind), (b for b in bodies(2, False, kind) if b[0][0] == "try:")):
                if bm == 0:
                    continue
                lines, m, c = number(bl)
                if kind in ("agen", "gen") and not any("yield" in l for l in lines):
                    lines = lines + ["yield 'z'"]
                yield kind, head + "\n" + "\n".join("    " + l for l in WIDE + lines) + "\n", m, c
        family = itertools.chain(bodies(maxd, False, kind),
                                 (b for b in bodies(3, False, kind, SANDWICH) if b[2] >= 2) if (sandwich and maxd == 2) else ())
        for bl, bc, bm in family:
            if bm == 0:
                continue
            lines, m, c = number(bl)
            if kind in ("agen", "gen") and not any("yield" in l for l in lines):
                lines = lines + ["yield 'z'"]
            src = head + "\n" + "\n".join("    " + l for l in lines) + "\n"
            if src in seen:
                continue
            seen.add(src)
            yield kind, src, m, c


if __name__ == "__main__":
    import collections
    print(collections.Counter(k for k, *_ in programs(2)))
