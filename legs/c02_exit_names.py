"""C02 bounded native leg: the manager being exited is identified whatever its exit function is CALLED.  A manager class may alias
its exit method (`__exit__ = release`, `__aexit__ = aclose`), wrap it in a decorator (the running code object is the wrapper's)
or inherit it; probed from inside the exit call, for every way of leaving the block {fall-through, return, break, exception} in a
plain function, a generator and a coroutine: the context is listed last with is_exiting and obj IS the manager."""
import sys, os, functools, itertools
sys.path.insert(0, os.path.dirname(__file__))
from _leg import Leg
import stackscope

leg = Leg("c02_exit_names", "5 ways of naming the exit function x 4 ways of leaving the block x {function, generator, coroutine}; "
                            "non-trivial = every case")
SEEN = []
ROOT = [None]


def probe():
    st = stackscope.extract_since(ROOT[0])
    SEEN.append(st)


def logged(fn):
    # (a wrapper taking only *args hides `self` from the frame's named arguments: obj is then None by design of the inference -
    # observed, outside the property's program family, not checked here)
    @functools.wraps(fn)
    def wrapper(self, *a, **kw):
        return fn(self, *a, **kw)
    return wrapper


class Plain:
    def __enter__(s): return s
    def __exit__(s, *a): probe(); return isinstance(a[1], KeyError)


class Aliased:
    def __enter__(s): return s
    def release(s, *a): probe(); return isinstance(a[1], KeyError)
    __exit__ = release


class Decorated:
    def __enter__(s): return s
    @logged
    def __exit__(s, *a): probe(); return isinstance(a[1], KeyError)


class Inherited(Aliased):
    pass


class Lambda:
    def __enter__(s): return s
    __exit__ = lambda s, *a: (probe(), isinstance(a[1], KeyError))[1]


class AAliased:
    async def __aenter__(s): return s
    async def aclose(s, *a): probe(); return isinstance(a[1], KeyError)
    __aexit__ = aclose


SYNC = [Plain, Aliased, Decorated, Inherited, Lambda]
LEAVE = ["fall", "return", "break", "raise"]


def body_sync(M, how, holder):
    ROOT[0] = sys._getframe(0)
    for _ in range(1):
        m = M(); holder.append(m)
        with m:
            if how == "return": return 1
            if how == "break": break
            if how == "raise": raise KeyError("x")
    return 0


def body_gen(M, how, holder):
    ROOT[0] = sys._getframe(0)
    for _ in range(1):
        m = M(); holder.append(m)
        with m:
            if how == "return": return
            if how == "break": break
            if how == "raise": raise KeyError("x")
    yield 0


async def body_coro(M, how, holder):
    ROOT[0] = sys._getframe(0)
    for _ in range(1):
        m = M(); holder.append(m)
        async with m:
            if how == "return": return 1
            if how == "break": break
            if how == "raise": raise KeyError("x")
    return 0


def drive(kind, M, how, holder):
    if kind == "function":
        body_sync(M, how, holder)
    elif kind == "generator":
        for _ in body_gen(M, how, holder): pass
    else:
        c = body_coro(M, how, holder)
        try: c.send(None)
        except StopIteration: pass


for kind, Ms in (("function", SYNC), ("generator", SYNC), ("coroutine", [AAliased])):
    for M, how in itertools.product(Ms, LEAVE):
        del SEEN[:]
        holder = []
        key = (kind, M.__name__, how)
        leg.case(key, True, sample=dict(kind=kind, manager=M.__name__, leave=how) if M is Aliased and how == "return" else None)
        try:
            drive(kind, M, how, holder)
        except Exception as e:
            leg.violation(key, f"driver raised {e!r}"); continue
        if len(SEEN) != 1:
            leg.violation(key, f"the exit function was probed {len(SEEN)} times"); continue
        st = SEEN[0]
        fr = st.frames[0]
        cs = fr.contexts
        if st.error is not None or not cs or not cs[-1].is_exiting or cs[-1].obj is not holder[0]:
            leg.violation(key, f"probe from inside the exit function {M.__name__}.{('__aexit__' if kind == 'coroutine' else '__exit__')} "
                               f"(leaving by {how}): contexts {[(c.obj, c.is_exiting) for c in cs]}, expected the manager {holder[0]!r} last and exiting; "
                               f"error={st.error!r}")
leg.finish(exhaustive=True)
