"""C02 bounded native leg: the manager being exited is identified whatever its exit function is CALLED.  A manager class may alias
its exit method (`__exit__ = release`, `__aexit__ = aclose`), wrap it in a decorator (the running code object is the wrapper's)
or inherit it; probed from inside the exit call, for every way of leaving the block {fall-through, return, break, exception} in a
plain function, a generator and a coroutine: the context is listed last with is_exiting and obj IS the manager."""
import sys, os, functools, itertools
sys.path.insert(0, os.path.dirname(__file__))
from _leg import Leg
import stackscope

leg = Leg("c02_exit_names", "5 ways of naming the exit function x 4 ways of leaving the block x {function, generator, coroutine}; "
                            "non-trivial = every case")
SEEN = []
ROOT = [None]


def probe():
    st = stackscope.extract_since(ROOT[0])
    SEEN.append(st)


def logged(fn):
    # (a wrapper taking only *args hides `self` from the frame's named arguments: obj is then None by design of the inference -
    # observed, outside the property's program family, not checked here)
    @functools.wraps(fn)
    def wrapper(self, *a, **kw):
        return fn(self, *a, **kw)
    return wrapper


class Plain:
    def __enter__(s): return s
    def __exit__(s, *a): probe(); return isinstance(a[1], KeyError)


class Aliased:
    def __enter__(s): return s
    def release(s, *a): probe(); return isinstance(a[1], KeyError)
    __exit__ = release


class Decorated:
    def __enter__(s): return s
    @logged
    def __exit__(s, *a): probe(); return isinstance(a[1], KeyError)


class Inherited(Aliased):
    pass


class Lambda:
    def __enter__(s): return s
    __exit__ = lambda s, *a: (probe(), isinstance(a[1], KeyError))[1]


class AAliased:
    async def __aenter__(s): return s
    async def aclose(s, *a): probe(); return isinstance(a[1], KeyError)
    __aexit__ = aclose


class ProxyAexit:
    """an async manager whose __aexit__ is a plain def that delegates (returns another object's coroutine): its synchronous part
    runs while the `async with` is being exited"""
    class _Inner:
        async def __aexit__(s, *a): return isinstance(a[1], KeyError)
    async def __aenter__(s): return s
    def __aexit__(s, *a):
        probe()
        return ProxyAexit._Inner().__aexit__(*a)


SYNC = [Plain, Aliased, Decorated, Inherited, Lambda]
LEAVE = ["fall", "return", "break", "raise"]


def body_sync(M, how, holder):
    ROOT[0] = sys._getframe(0)
    for _ in range(1):
        m = M(); holder.append(m)
        with m:
            if how == "return": return 1
            if how == "break": break
            if how == "raise": raise KeyError("x")
    return 0


def body_gen(M, how, holder):
    ROOT[0] = sys._getframe(0)
    for _ in range(1):
        m = M(); holder.append(m)
        with m:
            if how == "return": return
            if how == "break": break
            if how == "raise": raise KeyError("x")
    yield 0


async def body_coro(M, how, holder):
    ROOT[0] = sys._getframe(0)
    for _ in range(1):
        m = M(); holder.append(m)
        async with m:
            if how == "return": return 1
            if how == "break": break
            if how == "raise": raise KeyError("x")
    return 0


def drive(kind, M, how, holder):
    if kind == "function":
        body_sync(M, how, holder)
    elif kind == "generator":
        for _ in body_gen(M, how, holder): pass
    else:
        c = body_coro(M, how, holder)
        try: c.send(None)
        except StopIteration: pass


for kind, Ms in (("function", SYNC), ("generator", SYNC), ("coroutine", [AAliased, ProxyAexit])):
    for M, how in itertools.product(Ms, LEAVE):
        del SEEN[:]
        holder = []
        key = (kind, M.__name__, how)
        leg.case(key, True, sample=dict(kind=kind, manager=M.__name__, leave=how) if M is Aliased and how == "return" else None)
        try:
            drive(kind, M, how, holder)
        except Exception as e:
            leg.violation(key, f"driver raised {e!r}"); continue
        if len(SEEN) != 1:
            leg.violation(key, f"the exit function was probed {len(SEEN)} times"); continue
        st = SEEN[0]
        fr = st.frames[0]
        cs = fr.contexts
        if st.error is not None or not cs or not cs[-1].is_exiting or cs[-1].obj is not holder[0] or cs[-1].is_async != (kind == "coroutine"):
            leg.violation(key, f"probe from inside the exit function (is_async={cs[-1].is_async if cs else None}) {M.__name__}.{('__aexit__' if kind == 'coroutine' else '__exit__')} "
                               f"(leaving by {how}): contexts {[(c.obj, c.is_exiting) for c in cs]}, expected the manager {holder[0]!r} last and exiting; "
                               f"error={st.error!r}")

# the same question asked from OUTSIDE: a coroutine suspended inside an aliased / decorated __aexit__ (C01), a thread parked inside an
# aliased / decorated __exit__ (C07): the exiting context names the manager
import types, threading


@types.coroutine
def trap():
    yield


class SuspAliased:
    async def __aenter__(s): return s
    async def aclose(s, *a): await trap(); return False
    __aexit__ = aclose


class SuspDecorated:
    async def __aenter__(s): return s
    @logged
    async def __aexit__(s, *a): await trap(); return False


for M in (SuspAliased, SuspDecorated):
    holder = []
    async def user():
        m = M(); holder.append(m)
        async with m:
            pass
    c = user(); c.send(None)
    key = ("suspended-in-exit", M.__name__)
    leg.case(key, True)
    st = stackscope.extract(c)
    cs = st.frames[0].contexts
    if st.error is not None or not cs or not cs[-1].is_exiting or cs[-1].obj is not holder[0]:
        leg.violation(key, f"coroutine suspended inside {M.__name__}'s exit function: contexts {[(c_.obj, c_.is_exiting) for c_ in cs]}, "
                           f"expected the manager last and exiting; error={st.error!r}")
    c.close()


class ParkAliased:
    def __init__(s, ev, go): s.ev, s.go = ev, go
    def __enter__(s): return s
    def close(s, *a): s.ev.set(); s.go.wait(); return False
    __exit__ = close


class ParkDecorated(ParkAliased):
    @logged
    def __exit__(s, *a): s.ev.set(); s.go.wait(); return False


for M in (ParkAliased, ParkDecorated):
    ev, go = threading.Event(), threading.Event()
    holder = []
    def body():
        m = M(ev, go); holder.append(m)
        with m:
            pass
    t = threading.Thread(target=body); t.start(); ev.wait()
    key = ("thread-parked-in-exit", M.__name__)
    leg.case(key, True)
    st = stackscope.extract(t)
    fr = [f for f in st.frames if f.funcname == "body"]
    cs = fr[0].contexts if fr else []
    if st.error is not None or not cs or not cs[-1].is_exiting or cs[-1].obj is not holder[0]:
        leg.violation(key, f"thread parked inside {M.__name__}'s exit function: contexts {[(c_.obj, c_.is_exiting) for c_ in cs]}, "
                           f"expected the manager last and exiting; error={st.error!r}")
    go.set(); t.join()
leg.finish(exhaustive=True)
