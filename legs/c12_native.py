"""C12 bounded native leg: get_code resolves wrapper towers / nested names to the code object that RUNS; code_dispatch binds
by identity (equal-but-distinct code objects are told apart); every customize option takes effect in both forms.
Bounds: towers of depth <= 3 over {partial, wraps, method, classmethod, staticmethod}; nestings of depth <= 3; 2 generations
of equal code objects looked up in both orders; all 2^3 flag sets x 3 elaborate behaviours x {direct, decorator}."""
import functools, itertools, sys, types
sys.path.insert(0, __import__("os").path.dirname(__file__))
from _leg import Leg, THOROUGH
import stackscope
from stackscope.lowlevel import get_code, code_dispatch, IdentityDict

leg = Leg("c12_native", "wrapper towers depth<=3 x 5 wrapper kinds; nested-name paths depth<=3 in 2 equal generations x lookup order; "
                        "customize flags x elaborate behaviour x form; non-trivial = tower/nesting/flag-set distinct")


def make_inner(kind):
    """returns (object handed to get_code, function whose code really runs)"""
    def m(*a): return sys._getframe(0)
    class C:
        pass
    if kind == "function":
        return m, m
    if kind == "method":
        return types.MethodType(m, C()), m
    if kind == "classmethod":
        return classmethod(m), m
    if kind == "staticmethod":
        return staticmethod(m), m
    if kind == "bound-classmethod":
        C.cm = classmethod(m)
        return C.cm, m


def layer(kind, f):
    if kind == "partial":
        return functools.partial(f)
    @functools.wraps(f)
    def w(*a, **k): return f(*a, **k)
    return w


for inner in ("function", "method", "classmethod", "staticmethod", "bound-classmethod"):
    for depth in range(0, 4):
        for kinds in itertools.product(("partial", "wraps"), repeat=depth):
            if depth and inner in ("classmethod", "staticmethod"):
                continue      # raw descriptor objects are not callable: nothing can wrap them
            obj, real = make_inner(inner)
            for k in kinds:
                obj = layer(k, obj)
            leg.case(("tower", inner, kinds), True, sample=dict(inner=inner, layers=list(kinds)) if depth == 2 and inner == "method" else None)
            try:
                got = get_code(obj)
            except Exception as e:
                leg.violation(("tower", inner, kinds), f"get_code raised {e!r}"); continue
            if got is not real.__code__:
                leg.violation(("tower", inner, kinds), f"get_code returned {got!r}, the code that runs is {real.__code__!r}")

SRC = '''
def outer():
    def worker():
        def inner():
            class K:
                def meth(self): return __import__("sys")._getframe(0)
            return K
        return inner
    def other(): pass
    return worker
'''


def generation():
    ns = {}
    exec(compile(SRC, "<gen>", "exec"), ns)
    return ns["outer"]


# a name reused DEEPER inside an earlier sibling: each path step looks only at the direct children of the code reached so far
SRC2 = '''
def outer2():
    def first():
        def target():          # deep namesake, inside an EARLIER sibling
            return "deep"
        def only_deep(): pass
        return target
    def target():
        return "direct"
    return first, target
'''
ns2 = {}
exec(compile(SRC2, "<gen2>", "exec"), ns2)
o2 = ns2["outer2"]
first_fn, direct_fn = o2()
deep_fn = first_fn()
for path, truth in ((["target"], direct_fn.__code__), (["first", "target"], deep_fn.__code__), (["first"], first_fn.__code__)):
    leg.case(("nested-namesake", tuple(path)), True)
    try:
        got = get_code(o2, *path)
    except Exception as e:
        leg.violation(("nested-namesake", tuple(path)), f"get_code(outer2, {path}) raised {e!r}"); continue
    if got is not truth:
        leg.violation(("nested-namesake", tuple(path)), f"get_code(outer2, {path}) is {got!r}, the function that name denotes there runs {truth!r}")
leg.case(("nested-namesake", "only-deeper"), True)
try:
    get_code(o2, "only_deep"); leg.violation(("nested-namesake", "only-deeper"), "a name that exists only at a deeper level resolved instead of ValueError")
except ValueError:
    pass

# implicit scopes (<lambda>, <genexpr>, <listcomp>) are looked up like any other name: among the DIRECT children only
SRC3 = '''
def outer3():
    gen = ((lambda: "in-genexpr") for _ in range(1))
    lam = lambda: "direct"
    return gen, lam
'''
ns3 = {}
exec(compile(SRC3, "<gen3>", "exec"), ns3)
o3 = ns3["outer3"]
gen3, lam3 = o3()
leg.case(("nested-implicit-scope", "<lambda>"), True)
try:
    got3 = get_code(o3, "<lambda>")
    if got3 is not lam3.__code__:
        leg.violation(("nested-implicit-scope", "<lambda>"), f"get_code(outer3, '<lambda>') is {got3!r}, the direct child lambda runs {lam3.__code__!r}")
except Exception as e:
    leg.violation(("nested-implicit-scope", "<lambda>"), f"get_code(outer3, '<lambda>') raised {e!r}")

# the LATEST customize() of a target wins, also when it switches everything off again
import stackscope as _ss
def cust_target():
    return _ss.extract_since(None).frames[-1]
for form in ("direct", "decorator"):
    leg.case(("customize-latest-wins", form), True)
    _ss.customize(cust_target, hide=True, hide_line=True)
    fr_on = cust_target()
    if form == "direct":
        _ss.customize(cust_target, hide=False, hide_line=False)
    else:
        _ss.customize(hide=False, hide_line=False)(cust_target)
    fr_off = cust_target()
    if not (fr_on.hide and fr_on.hide_line) or fr_off.hide or fr_off.hide_line:
        leg.violation(("customize-latest-wins", form), f"customize(hide=True, hide_line=True) then customize(hide=False, hide_line=False): "
                                                       f"first {(fr_on.hide, fr_on.hide_line)}, then {(fr_off.hide, fr_off.hide_line)}")

for order in (0, 1):
    g1, g2 = generation(), generation()
    assert g1.__code__ == g2.__code__ and g1.__code__ is not g2.__code__
    gens = [g1, g2] if order == 0 else [g2, g1]
    for path in ([], ["worker"], ["worker", "inner"], ["worker", "inner", "K"], ["worker", "inner", "K", "meth"]):
        for g in gens:
            leg.case(("nested", order, tuple(path), g is g1), bool(path), sample=dict(path=path, order=order) if len(path) == 2 else None)
            code = get_code(g, *path)
            # ground truth: walk the real objects
            truth = g.__code__
            for name in path:
                truth = [c for c in truth.co_consts if isinstance(c, types.CodeType) and c.co_name == name][0]
            if code is not truth:
                leg.violation(("nested", order, tuple(path)), "get_code resolved a nested name to a merely equal code object of another generation")
    for bad in (["nope"], ["worker", "nope"]):
        try:
            get_code(g1, *bad); leg.violation(("nested-missing", tuple(bad)), "no ValueError for a missing nested name")
        except ValueError:
            pass
    # identity-keyed dispatch
    @code_dispatch(lambda fr: fr.f_code)
    def disp(fr): return "default"
    disp.register(g1, "worker")(lambda fr: "g1")
    w1, w2 = g1(), g2()
    class FakeFrame:
        def __init__(s, c): s.f_code = c
    leg.case(("dispatch-identity", order))
    if disp(FakeFrame(w1.__code__)) != "g1" or disp(FakeFrame(w2.__code__)) != "default":
        leg.violation(("dispatch-identity", order), "registration applied to a merely equal code object (or not to its own)")
    disp.register(g1, "worker", lambda fr: "latest")
    if disp(FakeFrame(w1.__code__)) != "latest":
        leg.violation(("dispatch-latest", order), "latest registration did not win")

# IdentityDict against a model under pseudo-random operation sequences
import random
rnd = random.Random(12345)
class Eq:
    def __init__(s, v): s.v = v
    def __eq__(s, o): return True
    def __hash__(s): return 1
keys = [Eq(i) for i in range(4)]
for trial in range(200 if THOROUGH else 60):
    d = IdentityDict(); model = {}
    for step in range(12):
        k = rnd.choice(keys); op = rnd.choice(["set", "get", "del", "pop", "setdefault", "len", "popitem", "clear"])
        leg.case(("idict", trial, step, op), False)
        try:
            if op == "set": d[k] = step; model[id(k)] = (k, step)
            elif op == "get":
                exp = model.get(id(k))
                try: got = d[k]; assert exp is not None and got == exp[1]
                except KeyError: assert exp is None
            elif op == "del":
                try: del d[k]; assert id(k) in model; del model[id(k)]
                except KeyError: assert id(k) not in model
            elif op == "pop":
                got = d.pop(k, "dflt"); exp = model.pop(id(k), (None, "dflt"))[1]; assert got == exp
            elif op == "setdefault":
                got = d.setdefault(k, step); exp = model.setdefault(id(k), (k, step))[1]; assert got == exp
            elif op == "len": assert len(d) == len(model)
            elif op == "popitem":
                if model:
                    kk, vv = d.popitem(); assert model.pop(id(kk)) == (kk, vv)
            elif op == "clear": d.clear(); model.clear()
            assert sorted(map(id, d)) == sorted(model)
        except AssertionError:
            leg.violation(("idict", trial, step, op), "IdentityDict deviates from the identity-keyed model"); break
leg.distinct.add("idict-model")

# customize: flags x elaborate x form
def run_custom(form, hide, hide_line, prune, elab_kind):
    calls = []
    def elab(frame, nxt):
        calls.append(1)
        return None if elab_kind == "none" else ([] if elab_kind == "empty-list" else ())
    kw = dict(hide=hide, hide_line=hide_line, prune=prune)
    if elab_kind != "absent":
        kw["elaborate"] = elab
    def callee(): return stackscope.extract(stackscope.StackSlice(outer=anchor[0]))
    anchor = [None]
    if form == "direct":
        def target(): return callee()
        stackscope.customize(target, **kw)
    else:
        @stackscope.customize(**kw)
        def target(): return callee()
    def runner():
        anchor[0] = sys._getframe(0)
        return target()
    st = runner()
    names = [f.funcname for f in st.frames]
    fr = [f for f in st.frames if f.funcname == "target"][0]
    pruned = "callee" not in names
    expect_pruned = prune if elab_kind in ("absent", "none") else True
    bad = []
    if fr.hide != hide: bad.append("hide")
    if fr.hide_line != hide_line: bad.append("hide_line")
    if pruned != expect_pruned: bad.append(f"prune(got {names})")
    if (elab_kind != "absent") != bool(calls): bad.append("elaborate not called")
    return bad

for form in ("direct", "decorator"):
    for hide, hl, pr in itertools.product([False, True], repeat=3):
        for ek in ("absent", "none", "replace", "empty-list"):
            leg.case(("customize", form, hide, hl, pr, ek), True, sample=dict(form=form, hide=hide, hide_line=hl, prune=pr, elaborate=ek) if (hide and not pr and ek == "none") else None)
            bad = run_custom(form, hide, hl, pr, ek)
            if bad:
                leg.violation(("customize", form, hide, hl, pr, ek), f"options without effect: {bad}")

# the same options through the extract_outermost entry point (the returned frame alone must carry them), on a suspended generator
for form in ("direct", "decorator"):
    for hide, hl in itertools.product([False, True], repeat=2):
        calls = []
        def elab(frame, nxt): calls.append(1); return None
        if form == "direct":
            def gtarget(): yield
            stackscope.customize(gtarget, hide=hide, hide_line=hl, elaborate=elab)
        else:
            @stackscope.customize(hide=hide, hide_line=hl, elaborate=elab)
            def gtarget(): yield
        g = gtarget(); next(g)
        key = ("customize-outermost", form, hide, hl)
        leg.case(key, True)
        try:
            fr = stackscope.extract_outermost(g)
            if fr.hide != hide or fr.hide_line != hl or not calls:
                leg.violation(key, f"extract_outermost returned a frame without its customisation: hide={fr.hide} hide_line={fr.hide_line} elaborate called={bool(calls)}")
        except Exception as e:
            leg.violation(key, f"extract_outermost raised {e!r}")
        g.close()

# a customised frame whose CONTEXT ANALYSIS fails still gets its options, and its callees stay (the failure is only recorded)
import stackscope._extract as _E
for hide, pr in itertools.product([False, True], repeat=2):
    key = ("customize-with-failing-context-analysis", hide, pr)
    leg.case(key, True)
    def leafgen(): yield
    def midgen(): yield from leafgen()
    stackscope.customize(midgen, hide=hide, prune=pr)
    g = midgen(); next(g)
    orig = _E.contexts_active_in_frame
    def failing(frame, *a, **k):
        if frame.f_code is midgen.__code__: raise KeyError("context analysis failed on the customised frame")
        return orig(frame, *a, **k)
    _E.contexts_active_in_frame = failing
    try:
        st = stackscope.extract(g)
    finally:
        _E.contexts_active_in_frame = orig
    names = [f.funcname for f in st.frames]
    fr = [f for f in st.frames if f.funcname == "midgen"]
    if not fr or fr[0].hide != hide or ("leafgen" in names) == pr or st.error is None:
        leg.violation(key, f"frames={names} hide={[f.hide for f in fr]} (want {hide}), callee kept={'leafgen' in names} (want {not pr}), error={st.error!r}")
    g.close()
leg.finish(exhaustive=True)
