"""C01 / C02 / C20 bounded native leg: very large functions.  The instruction arguments around a with statement's exit call (the
constant None loaded for the three exit arguments, jump targets) may need TWO or THREE EXTENDED_ARG prefixes: functions with
n = 10, 300, 66 000 distinct constants in front of the first None, an `async with` nested in a `with`, left by fall-through and by
an exception, observed while the inner __aexit__ is in progress (coroutine suspended there) and in the body; default analysis
and referents mode: the outer manager is active, the inner one is listed last and exiting (obj filled in by extract), no warning."""
import sys, os, types, warnings
sys.path.insert(0, os.path.dirname(__file__))
from _leg import Leg, THOROUGH
import stackscope
from stackscope import lowlevel as ll

leg = Leg("c01_huge_consts", "3 sizes (None at constant index 10 / 300 / 66 000) x 2 exits x 2 observation points x 2 analysis modes; "
                             "non-trivial = size >= 300")


@types.coroutine
def suspend(v):
    return (yield v)


class Outer:
    def __enter__(s): return s
    def __exit__(s, *a): return False


class SlowExit:
    async def __aenter__(s): return s
    async def __aexit__(s, *a):
        await suspend("exiting")
        return True


def build(n, body):
    src = "\n".join([
        "async def example(outer, mgr, suspend):",
        "    '''docstring (so that constant 0 is not None)'''",
        f"    s = 'A' * {n}",
        "    lst = [{}]".format(", ".join(f"s[{i}]" for i in range(n))),
        "    with outer:",
        "        async with mgr:",
        "            await suspend('body')",
        f"            {body}",
    ])
    ns = {}
    exec(src, {}, ns)
    return ns["example"]


for n in (10, 300, 66000):
    for body in ("pass", "raise KeyError"):
        fn = build(n, body)
        for mode in (None, False):
            ll.set_trickery_enabled(mode)
            outer, mgr = Outer(), SlowExit()
            co = fn(outer, mgr, suspend)
            for point in ("body", "exiting"):
                assert co.send(None) == point
                key = (n, body, point, "referents" if mode is False else "default")
                leg.case(key, n >= 300)
                with warnings.catch_warnings(record=True) as w:
                    warnings.simplefilter("always")
                    st = stackscope.extract(co)
                cs = st.frames[0].contexts
                got = [(c.obj, c.is_async, c.is_exiting) for c in cs]
                want_tail = (mgr, True, point == "exiting")
                ok = st.error is None and not w and got and got[0] == (outer, False, False) and got[-1] == want_tail and \
                    all(g == (mgr, True, False) for g in got[1:-1]) and (mode is False or len(got) == 2)
                if not ok:
                    leg.violation(key, f"None at constant index {fn.__code__.co_consts.index(None)}: contexts {got}, expected "
                                       f"[{(outer, False, False)}, {want_tail}]; warnings {[str(x.message)[:80] for x in w]} error {st.error!r}")
            co.close()
ll.set_trickery_enabled(None)
leg.finish(exhaustive=True)
