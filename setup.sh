#!/bin/sh
# Offline setup: nothing is fetched.  Vendors typing_extensions (from the offline wheelhouse) and a
# minimal exceptiongroup stand-in for the pyenv 3.9/3.10 native legs; checks the solver bindings.
set -e
cd "$(dirname "$0")"
mkdir -p .vendor evidence replays
if [ ! -f .vendor/typing_extensions.py ]; then
  W=$(ls /opt/veriftools/wheels/typing_extensions-*.whl 2>/dev/null | head -1)
  if [ -n "$W" ]; then python3 -c "import zipfile,sys; zipfile.ZipFile(sys.argv[1]).extract('typing_extensions.py','.vendor')" "$W"; fi
fi
cat > .vendor/exceptiongroup.py <<'PY'
# stand-in for the `exceptiongroup` backport (absent from the sandbox); only used by bounded native legs on 3.9/3.10
class ExceptionGroup(Exception):
    def __init__(self, message, exceptions):
        super().__init__(message, exceptions)
        self.message = message
        self.exceptions = tuple(exceptions)
PY
python3-vt -c "import z3, cvc5; print('solvers ok', z3.get_version_string())"
echo setup done
